"""Locate items in the real source tree (DESIGN 3.1) and apply the mechanical rewrites (DESIGN 3.2)."""
import hashlib
import re
from .rustlex import lex, match_close, code_indices, norm, Tok, LexError


class Undecided(Exception):
    """lost anchor / unsupported construct: exit 2, never an alarm"""


QUALS = {'pub', 'const', 'async', 'unsafe', 'extern', 'default'}
LOG_MACROS = {'trace', 'debug', 'info', 'warn', 'error'}


def _line_of(src, pos):
    return src.count('\n', 0, pos) + 1


class Source:
    def __init__(self, path, text):
        self.path = path
        self.text = text
        self.toks = lex(text)
        self.code = code_indices(self.toks)          # indices into toks
        self.pos = {k: n for n, k in enumerate(self.code)}  # tok index -> code index

    # ---- helpers over the code-token stream ----
    def ct(self, n):
        return self.toks[self.code[n]]

    def _skip_test_mods(self):
        """return set of code indices inside `#[cfg(test)] mod x { .. }` blocks"""
        skip = []
        n = 0
        C = self.code
        while n < len(C) - 6:
            if (self.ct(n).text == '#' and self.ct(n + 1).text == '[' and self.ct(n + 2).text == 'cfg'
                    and self.ct(n + 3).text == '(' and self.ct(n + 4).text == 'test'):
                # find the item following the attribute
                close = match_close(self.toks, C[n + 1])
                m = self.pos_after(close)
                # skip further attributes
                while self.ct(m).text == '#':
                    close = match_close(self.toks, C[m + 1])
                    m = self.pos_after(close)
                if self.ct(m).text == 'pub':
                    m += 1
                if self.ct(m).text == 'mod':
                    # find '{'
                    k = m
                    while self.ct(k).text not in '{;':
                        k += 1
                    if self.ct(k).text == '{':
                        e = match_close(self.toks, C[k])
                        skip.append((C[k], e))
                        n = self.pos_after(e)
                        continue
            n += 1
        return skip

    def pos_after(self, tok_index):
        """code index of first code token after toks[tok_index]"""
        k = tok_index + 1
        while k < len(self.toks) and k not in self.pos:
            k += 1
        return self.pos.get(k, len(self.code))

    def find_blocks(self, keyword):
        """yield (hdr_start_code_idx, open_brace_tok_idx, close_brace_tok_idx, header_norm) for each
        `keyword ... {` block (keyword in impl/trait/mod) outside test modules, at any nesting of mods."""
        skips = self._skip_test_mods()
        out = []
        C = self.code
        depth_stack = []  # we do a linear scan and only accept keyword tokens in item position
        n = 0
        while n < len(C):
            t = self.ct(n)
            ti = C[n]
            if any(a <= ti <= b for a, b in skips):
                n += 1
                continue
            if t.kind == 'ident' and t.text == keyword and self._item_position(n):
                k = n
                while k < len(C) and self.ct(k).text not in ('{', ';'):
                    if self.ct(k).text in ('(', '['):
                        k = self.pos[match_close(self.toks, C[k])]
                    k += 1
                if k < len(C) and self.ct(k).text == '{':
                    close = match_close(self.toks, C[k])
                    hdr = ' '.join(self.ct(j).text for j in range(n, k))
                    out.append((n, C[k], close, hdr))
                    n = k + 1  # descend into block (nested impls are rare but mods are common)
                    continue
            n += 1
        return out

    def _item_position(self, n):
        """code token n starts an item (previous code token is one of ; { } ] or a qualifier or BOF)"""
        if n == 0:
            return True
        p = self.ct(n - 1)
        if p.text in (';', '{', '}', ']', ')'):
            # ')' for pub(crate)
            return True
        if p.kind == 'ident' and p.text in QUALS:
            return True
        if p.kind == 'str':  # extern "C"
            return True
        return False

    def find_fns(self, name, lo_tok=0, hi_tok=None, depth_of=None):
        """find `fn name` items whose tokens lie in toks[lo_tok:hi_tok] at brace depth 0 relative to lo."""
        hi_tok = len(self.toks) if hi_tok is None else hi_tok
        res = []
        depth = 0
        C = self.code
        skips = self._skip_test_mods()
        for n, ti in enumerate(C):
            if ti < lo_tok or ti >= hi_tok:
                continue
            t = self.toks[ti]
            if t.kind == 'punct':
                if t.text == '{': depth += 1
                elif t.text == '}': depth -= 1
            if depth != 0:
                continue
            if any(a <= ti <= b for a, b in skips):
                continue
            if t.kind == 'ident' and t.text == 'fn' and n + 1 < len(C) and self.ct(n + 1).text == name \
                    and self.ct(n + 1).kind == 'ident':
                res.append(n)
        return res

    def fn_item(self, n_fn):
        """given code index of `fn`, return dict describing the item"""
        C = self.code
        # start: walk back over qualifiers incl. pub(crate)
        s = n_fn
        while s > 0:
            p = self.ct(s - 1)
            if p.kind == 'ident' and p.text in QUALS:
                s -= 1
            elif p.text == ')' and s >= 4 and self.ct(s - 4).text == 'pub' and self.ct(s - 3).text == '(':
                s -= 4
            elif p.kind == 'str' and s >= 2 and self.ct(s - 2).text == 'extern':
                s -= 2
            else:
                break
        # refuse cfg-guarded items: look at attributes immediately before
        a = s
        while a >= 1 and self.ct(a - 1).text == ']':
            # find matching '[' backwards
            depth = 0
            k = a - 1
            while k >= 0:
                tx = self.ct(k).text
                if tx == ']': depth += 1
                elif tx == '[':
                    depth -= 1
                    if depth == 0: break
                k -= 1
            if k >= 1 and self.ct(k - 1).text == '#':
                attr = ' '.join(self.ct(j).text for j in range(k, a))
                if re.match(r'\[ cfg\b', attr) or re.match(r'\[ cfg_attr\b', attr):
                    raise Undecided('item under #[cfg]: %s' % attr)
                a = k - 1
            else:
                break
        # signature end: first '{' or ';' at paren depth 0
        k = n_fn
        while self.ct(k).text not in ('{', ';'):
            if self.ct(k).text in ('(', '['):
                k = self.pos[match_close(self.toks, C[k])]
            k += 1
        sig_start = self.toks[C[s]].start
        if self.ct(k).text == ';':
            sig_end = self.toks[C[k]].start
            return dict(sig=self.text[sig_start:sig_end], body=None, start=sig_start, end=self.toks[C[k]].end)
        body_open = C[k]
        body_close = match_close(self.toks, body_open)
        sig_end = self.toks[body_open].start
        end = self.toks[body_close].end
        return dict(sig=self.text[sig_start:sig_end].rstrip(), body=self.text[sig_end:end],
                    start=sig_start, end=end)


def locate_fn(repo, relpath, fn_name, impl_hdr=None, trait_hdr=None, nth=None):
    path = '%s/%s' % (repo, relpath)
    try:
        text = open(path).read()
    except OSError as e:
        raise Undecided('lost anchor: cannot read %s (%s)' % (relpath, e))
    try:
        src = Source(relpath, text)
        cands = []
        if impl_hdr or trait_hdr:
            kw = 'impl' if impl_hdr else 'trait'
            want = norm(impl_hdr or trait_hdr)
            for (n, ob, cb, hdr) in src.find_blocks(kw):
                if want == hdr or (want + ' ') in (hdr + ' ') and _hdr_match(want, hdr):
                    for nf in src.find_fns(fn_name, ob + 1, cb):
                        cands.append((nf, hdr))
        else:
            # free function: depth 0 at file level or inside (non-test) mods
            for nf in src.find_fns(fn_name):
                cands.append((nf, ''))
            for (n, ob, cb, hdr) in src.find_blocks('mod'):
                for nf in src.find_fns(fn_name, ob + 1, cb):
                    cands.append((nf, hdr))
    except LexError as e:
        raise Undecided('lexer: %s in %s' % (e, relpath))
    if nth is not None:
        if nth >= len(cands):
            raise Undecided('lost anchor: %s › %s › fn %s #%d not found' % (relpath, impl_hdr or trait_hdr, fn_name, nth))
        cands = [cands[nth]]
    if len(cands) == 0:
        raise Undecided('lost anchor: %s › %s › fn %s not found' % (relpath, impl_hdr or trait_hdr or '(free)', fn_name))
    if len(cands) > 1:
        raise Undecided('ambiguous anchor: %s › %s › fn %s found %d times' % (relpath, impl_hdr or trait_hdr or '(free)', fn_name, len(cands)))
    nf, hdr = cands[0]
    item = src.fn_item(nf)
    orig = text[item['start']:item['end']]
    item.update(file=relpath, impl=hdr, name=fn_name,
                line_start=_line_of(text, item['start']), line_end=_line_of(text, item['end']),
                sha256=hashlib.sha256(orig.encode()).hexdigest(), orig=orig)
    return item


def _hdr_match(want, hdr):
    """`want` must be a whole-token substring of hdr"""
    return (' ' + want + ' ') in (' ' + hdr + ' ')


def locate_type(repo, relpath, kind, name):
    """copy a struct/enum definition (R2: attributes and doc comments removed)"""
    path = '%s/%s' % (repo, relpath)
    try:
        text = open(path).read()
    except OSError as e:
        raise Undecided('lost anchor: cannot read %s (%s)' % (relpath, e))
    src = Source(relpath, text)
    C = src.code
    skips = src._skip_test_mods()
    hits = []
    for n in range(len(C) - 1):
        if any(a <= C[n] <= b for a, b in skips):
            continue
        if src.ct(n).text == kind and src.ct(n).kind == 'ident' and src.ct(n + 1).text == name and src._item_position(n):
            hits.append(n)
    if len(hits) != 1:
        raise Undecided('lost anchor: %s › %s %s found %d times' % (relpath, kind, name, len(hits)))
    n = hits[0]
    s = n
    while s > 0 and (src.ct(s - 1).text in QUALS or src.ct(s - 1).text == ')'):
        if src.ct(s - 1).text == ')':
            s -= 4
        else:
            s -= 1
    k = n
    while src.ct(k).text not in ('{', ';', '('):
        k += 1
    if src.ct(k).text == '(':
        k = src.pos[match_close(src.toks, C[k])]
        while src.ct(k).text != ';':
            k += 1
        end_tok = C[k]
    elif src.ct(k).text == '{':
        end_tok = match_close(src.toks, C[k])
    else:
        end_tok = C[k]
    start = src.toks[C[s]].start
    end = src.toks[end_tok].end
    orig = text[start:end]
    return dict(file=relpath, name=name, kind=kind, orig=orig, text=strip_attrs(orig),
                line_start=_line_of(text, start), line_end=_line_of(text, end),
                sha256=hashlib.sha256(orig.encode()).hexdigest())


def strip_attrs(text):
    """R2: remove #[..] attributes and doc comments from a copied definition"""
    toks = lex(text)
    out = []
    k = 0
    while k < len(toks):
        t = toks[k]
        if t.kind == 'lcomment' and (t.text.startswith('///') or t.text.startswith('//!')):
            k += 1
            continue
        if t.kind == 'punct' and t.text == '#':
            j = k + 1
            while toks[j].kind == 'ws':
                j += 1
            if toks[j].text == '[':
                k = match_close(toks, j) + 1
                continue
        out.append(t.text)
        k += 1
    res = ''.join(out)
    res = re.sub(r'\n[ \t]*\n([ \t]*\n)+', '\n\n', res)
    res = re.sub(r'\{\n\s*\n', '{\n', res)
    return res


# ------------------------------------------------------------------------------------------------
# Rewrites on function text.  Each returns (new_text, count).
# ------------------------------------------------------------------------------------------------

def _prev_code(toks, k):
    j = k - 1
    while j >= 0 and toks[j].kind in ('ws', 'lcomment', 'bcomment'):
        j -= 1
    return j


def _next_code(toks, k):
    j = k + 1
    while j < len(toks) and toks[j].kind in ('ws', 'lcomment', 'bcomment'):
        j += 1
    return j


def r1_drop_log(text):
    """R1: delete statement-position tracing macro invocations"""
    toks = lex(text)
    out, k, count = [], 0, 0
    while k < len(toks):
        t = toks[k]
        if t.kind == 'ident' and t.text in LOG_MACROS:
            nb = _next_code(toks, k)
            if nb < len(toks) and toks[nb].text == '!':
                no = _next_code(toks, nb)
                if no < len(toks) and toks[no].text in ('(', '[', '{'):
                    # allow `tracing::debug!` prefix
                    p = _prev_code(toks, k)
                    start_out = len(out)
                    if p >= 1 and toks[p].text == ':' and toks[_prev_code(toks, p)].text == ':':
                        pp = _prev_code(toks, _prev_code(toks, p))
                        if toks[pp].text == 'tracing':
                            # remove already emitted `tracing ::`
                            while out and out[-1][1] >= toks[pp].start:
                                out.pop()
                            p = _prev_code(toks, pp)
                    if p >= 0 and toks[p].text not in (';', '{', '}'):
                        if toks[p].text == '>' and toks[_prev_code(toks, p)].text == '=':
                            raise Undecided('unsupported construct: log macro in match-arm expression position')
                        raise Undecided('unsupported construct: log macro in expression position near %r' % text[max(0, t.start - 40):t.start + 20])
                    close = match_close(toks, no)
                    ne = _next_code(toks, close)
                    if ne < len(toks) and toks[ne].text == ';':
                        close = ne
                    k = close + 1
                    count += 1
                    continue
        out.append((t.text, t.start))
        k += 1
    return ''.join(x for x, _ in out), count


def r8_opaque_text(text):
    """R8: format!(..) -> opaque_text(); panic!/unreachable!/unimplemented!/todo! lose their message arguments"""
    toks = lex(text)
    out, k, count = [], 0, 0
    while k < len(toks):
        t = toks[k]
        if t.kind == 'ident' and t.text in ('format', 'panic', 'unreachable', 'unimplemented', 'todo'):
            nb = _next_code(toks, k)
            if nb < len(toks) and toks[nb].text == '!':
                no = _next_code(toks, nb)
                if no < len(toks) and toks[no].text in ('(', '[', '{'):
                    close = match_close(toks, no)
                    inner = [x for x in toks[no + 1:close] if x.kind not in ('ws', 'lcomment', 'bcomment')]
                    if t.text == 'format':
                        out.append('opaque_text()')
                        count += 1
                    else:
                        out.append('%s!(%s)' % (t.text, '"vx"' if (t.text == 'panic' and inner) else ''))
                        count += 1 if inner else 0
                    k = close + 1
                    continue
        out.append(t.text)
        k += 1
    return ''.join(out), count


def r12_exec_asserts(text):
    """R12: assert_eq!(a, b) / assert!(c) in exec code -> if !(..) { vx_panic() }"""
    toks = lex(text)
    out, k, count = [], 0, 0
    while k < len(toks):
        t = toks[k]
        if t.kind == 'ident' and t.text in ('assert_eq', 'assert', 'debug_assert', 'debug_assert_eq'):
            nb = _next_code(toks, k)
            if nb < len(toks) and toks[nb].text == '!':
                no = _next_code(toks, nb)
                close = match_close(toks, no)
                # split top-level commas
                args, cur, depth = [], [], 0
                for x in toks[no + 1:close]:
                    if x.kind == 'punct' and x.text in '([{': depth += 1
                    if x.kind == 'punct' and x.text in ')]}': depth -= 1
                    if x.kind == 'punct' and x.text == ',' and depth == 0:
                        args.append(''.join(cur).strip()); cur = []
                    else:
                        cur.append(x.text)
                if ''.join(cur).strip():
                    args.append(''.join(cur).strip())
                if t.text.endswith('_eq'):
                    cond = '(%s) == (%s)' % (args[0], args[1])
                else:
                    cond = args[0]
                out.append('if !(%s) { panic!("vx") }' % cond)
                ne = _next_code(toks, close)
                k = close + 1
                count += 1
                continue
        out.append(t.text)
        k += 1
    return ''.join(out), count


def r11_split_or_guard(text):
    """R11: `P1 | P2 if g => { b }` becomes `P1 if g => { b } P2 if g => { b }` (Verus rejects or-pattern + guard).
    Only tuple patterns `( .. ) | ( .. )` with a block body are handled; anything else is left alone."""
    count = 0
    while True:
        toks = lex(text)
        hit = None
        for k, t in enumerate(toks):
            if t.kind == 'punct' and t.text == '|':
                p, nx = _prev_code(toks, k), _next_code(toks, k)
                if p < 0 or nx >= len(toks) or toks[p].text != ')' or toks[nx].text != '(':
                    continue
                # start of first pattern: matching '(' of toks[p]
                depth, a = 0, p
                while a >= 0:
                    if toks[a].kind == 'punct' and toks[a].text == ')': depth += 1
                    elif toks[a].kind == 'punct' and toks[a].text == '(':
                        depth -= 1
                        if depth == 0: break
                    a -= 1
                if a < 0: continue
                b = match_close(toks, nx)
                g = _next_code(toks, b)
                if g >= len(toks) or toks[g].text != 'if':
                    continue
                # previous code token before the first pattern must end an arm / open the match
                pa = _prev_code(toks, a)
                if pa >= 0 and toks[pa].text not in ('{', '}', ','):
                    continue
                # guard runs to '=>'
                j, depth = g + 1, 0
                while j < len(toks) - 1:
                    x = toks[j]
                    if x.kind == 'punct':
                        if x.text in '([{': depth += 1
                        elif x.text in ')]}': depth -= 1
                        elif x.text == '=' and toks[j + 1].text == '>' and depth == 0:
                            break
                    j += 1
                body_open = _next_code(toks, j + 1)
                if toks[body_open].text != '{':
                    raise Undecided('unsupported construct: or-pattern with guard and a non-block arm body')
                body_close = match_close(toks, body_open)
                hit = (a, p, nx, b, g, j, body_open, body_close)
                break
        if not hit:
            return text, count
        a, p, nx, b, g, j, bo, bc = hit
        pat1 = ''.join(t.text for t in toks[a:p + 1])
        pat2 = ''.join(t.text for t in toks[nx:b + 1])
        guard = ''.join(t.text for t in toks[g:j]).strip()
        body = ''.join(t.text for t in toks[bo:bc + 1])
        pre = ''.join(t.text for t in toks[:a])
        post = ''.join(t.text for t in toks[bc + 1:])
        text = '%s%s %s => %s\n            %s %s => %s%s' % (pre, pat1, guard, body, pat2, guard, body, post)
        count += 1


def r24_guard_comparison(text, mut_self=False):
    """R24: a match-arm guard that is ONE ordering comparison `A op B` (op one of < <= > >=, no top-level && / ||) is written in its
    method form `(A).lt(&(B))` / le / gt / ge - by the language definition the same call (`PartialOrd::gt(&A, &B)`). The installed Verus
    does not assume an OPERATOR guard on a non-primitive type inside the guarded arm (measured), the method form is handled exactly."""
    names = {'<': 'lt', '<=': 'le', '>': 'gt', '>=': 'ge'}
    count = 0
    pos = 0
    while True:
        toks = lex(text)
        hit = None
        for k, t in enumerate(toks):
            if k < pos or t.kind != 'ident' or t.text != 'if':
                continue
            # a guard: `if` .. `=>` at depth 0 with no `{` at depth 0 in between, and the `if` is not preceded by `else` / `=` / `(` ...
            pv = _prev_code(toks, k)
            if pv >= 0 and toks[pv].text in ('else', '=', '(', '{', ';', 'return', ','):
                if toks[pv].text != ',' :
                    continue
            j, depth, end = k + 1, 0, None
            while j < len(toks) - 1:
                x = toks[j]
                if x.kind == 'punct':
                    if x.text in '([': depth += 1
                    elif x.text in ')]': depth -= 1
                    elif x.text == '{' and depth == 0: break
                    elif x.text == '}' and depth == 0: break
                    elif x.text == ';' and depth == 0: break
                    elif x.text == '=' and toks[j + 1].text == '>' and depth == 0 and (j == 0 or toks[j - 1].text not in ('<', '>', '=', '!')):
                        end = j; break
                j += 1
            if end is None:
                continue
            if mut_self and any(t.kind == 'ident' and t.text == 'self' for t in toks[k + 1:end]):
                # measured: with a `&mut self` receiver the installed Verus does not resolve the borrow a guard takes from `self`, so the
                # function's `final(self)` is no longer tied to the state after the match - a proof failure there says nothing about the code
                raise Undecided('unsupported construct: match guard that reads through `self` in a `&mut self` function (%s)' % ''.join(t.text for t in toks[k:end]).strip()[:80])
            # top-level operators inside toks[k+1:end]
            ops, depth, bad, j = [], 0, False, k + 1
            while j < end:
                x = toks[j]
                if x.kind == 'punct':
                    if x.text in '([': depth += 1
                    elif x.text in ')]': depth -= 1
                    elif depth == 0:
                        nxt = toks[j + 1].text if j + 1 < end else ''
                        prv = toks[j - 1].text if j - 1 > k else ''
                        if x.text in ('&', '|') and nxt == x.text: bad = True
                        if x.text == ':' and nxt == ':' and j + 2 < end and toks[j + 2].text == '<': bad = True      # turbofish
                        if x.text in ('<', '>'):
                            if prv in ('-', '=', '<', '>') or nxt in ('<', '>'):
                                bad = bad or (nxt in ('<', '>') or prv in ('<', '>'))      # shifts: leave the guard alone
                            else:
                                ops.append((j, x.text + ('=' if nxt == '=' else '')))
                j += 1
            if bad or len(ops) != 1:
                continue
            hit = (k, end, ops[0])
            break
        if not hit:
            return text, count
        k, end, (oj, op) = hit
        lhs = ''.join(t.text for t in toks[k + 1:oj]).strip()
        rhs = ''.join(t.text for t in toks[oj + len(op):end]).strip()
        if not lhs or not rhs:
            pos = k + 1
            continue
        pre = ''.join(t.text for t in toks[:k + 1])
        post = ''.join(t.text for t in toks[end:])
        text = '%s (%s).%s(&(%s)) %s' % (pre, lhs, names[op], rhs, post)
        count += 1
        pos = k + 1


def r10_break_value(text, types):
    """R10: `let x = loop { .. break v; .. };` becomes `let x: T; loop { .. { x = v; break; } .. }` (Verus rejects break-with-value).
    `types` maps the bound name to its type (from the contract file; a wrong type is a rustc error, i.e. exit 2)."""
    count = 0
    while True:
        toks = lex(text)
        hit = None
        for k, t in enumerate(toks):
            if t.kind == 'ident' and t.text == 'let':
                n1 = _next_code(toks, k)
                n2 = _next_code(toks, n1)
                n3 = _next_code(toks, n2)
                n4 = _next_code(toks, n3)
                if (n4 < len(toks) and toks[n1].kind == 'ident' and toks[n2].text == '=' and toks[n3].text == 'loop' and toks[n4].text == '{'):
                    hit = (k, n1, n3, n4, match_close(toks, n4))
                    break
        if not hit:
            return text, count
        k, n1, n3, n4, close = hit
        name = toks[n1].text
        if name not in types:
            raise Undecided('R10: no type given for `let %s = loop {..}`' % name)
        # rewrite `break EXPR;` at this loop's own level (nested loops / closures keep theirs)
        out = []
        j = n4 + 1
        depth_skip = []
        while j < close:
            t = toks[j]
            if t.kind == 'ident' and t.text in ('loop', 'while', 'for'):
                # copy a nested loop verbatim
                b = j
                while toks[b].text != '{':
                    b += 1
                e = match_close(toks, b)
                out.append(''.join(x.text for x in toks[j:e + 1]))
                j = e + 1
                continue
            if t.kind == 'ident' and t.text == 'break':
                nx = _next_code(toks, j)
                if toks[nx].text == ';':
                    out.append('break')
                    j += 1
                    continue
                # expression up to the ';' at depth 0
                e, depth = nx, 0
                while True:
                    x = toks[e]
                    if x.kind == 'punct':
                        if x.text in '([{': depth += 1
                        elif x.text in ')]}': depth -= 1
                        elif x.text == ';' and depth == 0:
                            break
                    e += 1
                expr = ''.join(x.text for x in toks[nx:e]).strip()
                out.append('{ %s = %s; break; }' % (name, expr))
                j = e + 1
                count += 1
                continue
            out.append(t.text)
            j += 1
        after = _next_code(toks, close)
        tail_start = after + 1 if (after < len(toks) and toks[after].text == ';') else close + 1
        pre = ''.join(x.text for x in toks[:k])
        post = ''.join(x.text for x in toks[tail_start:])
        text = '%slet %s: %s;\n        loop {%s}%s' % (pre, name, types[name], ''.join(out), post)


def find_loops(text):
    """positions (char offsets of the opening '{' of the body) of `loop`, `while`, `for` loops in order"""
    toks = lex(text)
    res = []
    for k, t in enumerate(toks):
        if t.kind == 'ident' and t.text in ('loop', 'while', 'for'):
            if t.text == 'for':
                # `for<'a>` HRTB or `impl X for Y` are not loops
                nx = _next_code(toks, k)
                if toks[nx].text == '<':
                    continue
                p = _prev_code(toks, k)
                if p >= 0 and toks[p].kind == 'ident' and toks[p].text not in ('in',) and toks[p].text[0].isupper():
                    continue
            # find body '{' at depth 0
            j = k + 1
            depth = 0
            while j < len(toks):
                x = toks[j]
                if x.kind == 'punct':
                    if x.text in '([': depth += 1
                    elif x.text in ')]': depth -= 1
                    elif x.text == '{' and depth == 0:
                        # a struct-literal brace cannot appear in loop header position without parens
                        break
                j += 1
            res.append((k, j))
    return toks, res


def splice_loops(text, loop_specs, loop_ends=None):
    """R5: insert invariant text before the body brace of loop k; `loop_ends[k]` (proof-only ghost code) goes at the END of the body of loop k
    (after its last statement, which is terminated with `;` if it was a tail expression)"""
    loop_ends = loop_ends or {}
    if not loop_specs and not loop_ends:
        return text
    toks, loops = find_loops(text)
    ins, ends = {}, {}
    for k, spec in loop_specs.items():
        if k >= len(loops):
            raise Undecided('splice: loop %d not found (function has %d loops)' % (k, len(loops)))
        ins[loops[k][1]] = spec
    for k, code in loop_ends.items():
        if k >= len(loops):
            raise Undecided('splice: loop %d not found (function has %d loops)' % (k, len(loops)))
        close = match_close(toks, loops[k][1])
        p = _prev_code(toks, close)
        need_semi = toks[p].text not in (';', '{', '}')
        ends[close] = (';' if need_semi else '') + '\n' + code.rstrip() + '\n'
    out = []
    for j, t in enumerate(toks):
        if j in ins:
            out.append('\n' + ins[j].rstrip() + '\n')
        if j in ends:
            out.append(ends[j])
        out.append(t.text)
    return ''.join(out)


def count_loops(text):
    return len(find_loops(text)[1])


def find_closures(text):
    """closure heads `|args|` / `move |args|` in order: returns (toks, [(bar1_idx, bar2_idx)])"""
    toks = lex(text)
    res = []
    k = 0
    while k < len(toks):
        t = toks[k]
        if t.kind == 'punct' and t.text == '|':
            p = _prev_code(toks, k)
            pt = toks[p].text if p >= 0 else ''
            # closure start if previous token is ( , = { ; or `move` or `=>`... and not a binary-or / pattern-or
            starts = pt in ('(', ',', '=', '{', ';', 'move', 'return') or (pt == '>' and toks[_prev_code(toks, p)].text == '=')
            nx = _next_code(toks, k)
            if starts:
                if toks[nx].text == '|':  # `||` zero-arg closure
                    res.append((k, nx)); k = nx + 1; continue
                # find closing bar at depth 0
                j, depth = k + 1, 0
                while j < len(toks):
                    x = toks[j]
                    if x.kind == 'punct':
                        if x.text in '([{<': depth += 1
                        elif x.text in ')]}>': depth -= 1
                        elif x.text == '|' and depth <= 0:
                            break
                    j += 1
                res.append((k, j)); k = j + 1; continue
        k += 1
    return toks, res


def _split_params(ts):
    """the depth-0 comma separated parameter patterns of a closure head (normalised)"""
    parts, cur, depth = [], [], 0
    for t in ts:
        if t.kind == 'punct' and t.text in '([{<': depth += 1
        elif t.kind == 'punct' and t.text in ')]}>': depth -= 1
        if t.kind == 'punct' and t.text == ',' and depth == 0:
            parts.append(norm(''.join(x.text for x in cur))); cur = []
        else:
            cur.append(t)
    parts.append(norm(''.join(x.text for x in cur)))
    return parts


def splice_closures(text, closure_specs):
    """R5: replace the head of closure k (`|args|`) by an annotated head; body unchanged.
    The body is wrapped in braces if it is a bare expression (Verus requires a block after `ensures`)."""
    if not closure_specs:
        return text
    toks, cl = find_closures(text)
    edits = []  # (start_tok, end_tok_inclusive, replacement, body_wrap_needed)
    for k, head in closure_specs.items():
        if k >= len(cl):
            raise Undecided('splice: closure %d not found (function has %d closures)' % (k, len(cl)))
        b1, b2 = cl[k]
        nx = _next_code(toks, b2)
        # `$1`, `$2`, .. in a closure contract stand for the names of the closure's own parameters (when they are plain identifiers):
        # a renamed parameter keeps its contract
        if '$' in head:
            pnames = _split_params(toks[b1 + 1:b2])
            for n, pn in enumerate(pnames, 1):
                pn = pn.split(':')[0].strip()
                pn = re.sub(r'^(mut|ref)\s+', '', pn)
                if ('$%d' % n) in head:
                    if pn == '_':
                        pn = 'vx_p%d' % n      # an ignored parameter gets a name (Verus rejects `_` closure parameters)
                    if not re.match(r'^[A-Za-z_][A-Za-z0-9_]*$', pn):
                        raise Undecided('splice: closure %d parameter %d is not a plain identifier (%r)' % (k, n, pn))
                    head = head.replace('$%d' % n, pn)
        # R13: a closure parameter pattern `|(a, b)|` becomes `|p| { let (a, b) = p; .. }` (given as `//@bind let .. ;`)
        binds = [l.strip()[len('//@bind'):].strip() for l in head.split('\n') if l.strip().startswith('//@bind')]
        head = '\n'.join(l for l in head.split('\n') if not l.strip().startswith('//@bind'))
        if binds:
            orig_pat = norm(''.join(t.text for t in toks[b1 + 1:b2]))
            for b in binds:
                m = re.match(r'let\s+(.*?)\s*=\s*\w+\s*;$', b)
                if not m or norm(m.group(1)) not in _split_params(toks[b1 + 1:b2]):
                    raise Undecided('splice: closure %d parameter pattern %r does not match //@bind %r' % (k, orig_pat, b))
        if toks[nx].text == '{' and not binds:
            edits.append((b1, b2, head.strip() + '\n', None))
        elif toks[nx].text == '{':
            j = match_close(toks, nx)
            edits.append((b1, b2, head.strip() + '\n{ ' + ' '.join(binds) + ' ', j + 1))
        else:
            # bare-expression body: ends at the ',' / ')' / ';' at depth 0
            j, depth = nx, 0
            while j < len(toks):
                x = toks[j]
                if x.kind == 'punct':
                    if x.text in '([{': depth += 1
                    elif x.text in ')]}':
                        if depth == 0: break
                        depth -= 1
                    elif x.text in (',', ';') and depth == 0:
                        break
                j += 1
            edits.append((b1, b2, head.strip() + '\n{ ' + ' '.join(binds) + ' ', j))
    out = []
    closes = {e[3]: True for e in edits if e[3] is not None}
    skip_to = -1
    heads = {e[0]: e for e in edits}
    for j, t in enumerate(toks):
        if j in closes:
            out.append(' }')
        if j <= skip_to:
            continue
        if j in heads:
            out.append(heads[j][2])
            skip_to = heads[j][1]
            continue
        out.append(t.text)
    return ''.join(out)


def count_closures(text):
    return len(find_closures(text)[1])


def name_return(sig, ret_name):
    """`-> T` becomes `-> (r: T)`; a `where` clause stays after it"""
    toks = lex(sig)
    # locate the parameter list: first '(' after `fn NAME` that is outside the generic parameter list
    k = 0
    while k < len(toks) and not (toks[k].kind == 'ident' and toks[k].text == 'fn'):
        k += 1
    k = _next_code(toks, _next_code(toks, k))      # token after the name
    if k < len(toks) and toks[k].text == '<':
        depth = 0
        while k < len(toks):
            t = toks[k]
            if t.kind == 'punct':
                if t.text == '<': depth += 1
                elif t.text == '>' and toks[k - 1].text != '-':
                    depth -= 1
                    if depth == 0: break
            k += 1
        k = _next_code(toks, k)
    arrow = None
    if k < len(toks) and toks[k].text == '(':
        close = match_close(toks, k)
        j = _next_code(toks, close)
        if j + 1 < len(toks) and toks[j].text == '-' and toks[j + 1].text == '>':
            arrow = j
    if arrow is None:
        return sig
    # return type ends at top-level `where` or end
    end = len(toks)
    depth = 0
    for k in range(arrow + 2, len(toks)):
        t = toks[k]
        if t.kind == 'punct':
            if t.text in '([<': depth += 1
            elif t.text in ')]>' and not (t.text == '>' and toks[k - 1].text == '-'): depth -= 1
        if t.kind == 'ident' and t.text == 'where' and depth == 0:
            end = k
            break
    pre = ''.join(t.text for t in toks[:arrow + 2])
    ty = ''.join(t.text for t in toks[arrow + 2:end]).strip()
    post = ''.join(t.text for t in toks[end:])
    return '%s (%s: %s)%s' % (pre, ret_name, ty, ('\n' + post) if post.strip() else '')


def strip_comments(text):
    """the text without its line / block comments (a line comment keeps its line break)"""
    out = []
    for t in lex(text):
        if t.kind in ('lcomment', 'comment'):
            if t.text.startswith('//'):
                continue
            if t.text.startswith('/*'):
                out.append(' ')
                continue
        if t.kind == 'bcomment':
            out.append(' ')
            continue
        out.append(t.text)
    return ''.join(out)


def sig_params(sig):
    """(fn name, [parameter names]) of a signature: used to check a re-typed signature (R17) against the real one"""
    toks = [t for t in lex(sig) if t.kind not in ('ws', 'comment')]
    k = 0
    while k < len(toks) and not (toks[k].kind == 'ident' and toks[k].text == 'fn'):
        k += 1
    name = toks[k + 1].text
    k += 2
    depth = 0
    if toks[k].text == '<':
        while True:
            if toks[k].text == '<': depth += 1
            elif toks[k].text == '>' and toks[k - 1].text != '-': depth -= 1
            k += 1
            if depth == 0: break
    assert toks[k].text == '(', toks[k].text
    j = match_close(toks, k)
    names, depth, cur_first = [], 0, True
    i = k + 1
    while i < j:
        t = toks[i]
        if t.text in '([{<': depth += 1
        elif t.text in ')]}>' and not (t.text == '>' and toks[i - 1].text == '-'): depth -= 1
        elif t.text == ',' and depth == 0: cur_first = True; i += 1; continue
        if cur_first and t.kind == 'ident' and t.text not in ('mut', 'ref'):
            names.append(t.text); cur_first = False
        elif cur_first and t.text in ('&',):
            pass
        i += 1
    return (name, names)


def r18_stage(body, name, before, proof, fn_name):
    """R18: a body that is ONE method-chain expression `{ E.m(..) }` becomes `{ let name = E; <proof> name.m(..) }` where `.m(` is the
    last depth-0 occurrence of `before`. Pure let-introduction (evaluation order unchanged); refuses bodies with statements before it."""
    toks = lex(body)
    code = [i for i, t in enumerate(toks) if t.kind not in ('ws', 'comment')]
    assert toks[code[0]].text == '{'
    want = [t.text for t in lex(before) if t.kind not in ('ws', 'comment')]
    depth, hit = 0, None
    for ci in range(1, len(code) - 1):
        t = toks[code[ci]]
        if depth == 0 and [toks[code[ci + d]].text for d in range(len(want)) if ci + d < len(code)] == want:
            hit = ci
        if t.kind == 'punct' and t.text in '([{': depth += 1
        elif t.kind == 'punct' and t.text in ')]}': depth -= 1
        elif t.kind == 'punct' and t.text == ';' and depth == 0:
            raise Undecided('fn %s: R18 stage needs a body that is a single expression' % fn_name)
    if hit is None:
        raise Undecided('fn %s: R18 stage anchor %r lost' % (fn_name, before))
    pos = toks[code[hit]].start
    open_end = toks[code[0]].end
    return body[:open_end] + '\nlet %s = %s;\n%s\n%s' % (name, body[open_end:pos].strip(), proof, name) + body[pos:]


def r20_select(text):
    """R20: `tokio::select! { p0 = e0 => h0, p1 = e1 => h1, .. }` becomes a nondeterministic choice among the arms whose future can
    complete (A-SELECT): every future expression is evaluated first (as select! does), one arm k with `vx_can_complete()` is chosen by the
    external `vx_select<N>`, its future is resolved with `vx_ready()`, the other futures are dropped un-completed (`vx_cancel()`: the
    cancel-safety assumption made explicit), then the handler runs. Comments inside the macro are kept with their arm."""
    count = 0
    while True:
        toks = lex(text)
        hit = None
        for k, t in enumerate(toks):
            if t.kind == 'ident' and t.text == 'tokio':
                n1 = _next_code(toks, k); n2 = _next_code(toks, n1); n3 = _next_code(toks, n2); n4 = _next_code(toks, n3); n5 = _next_code(toks, n4)
                if (toks[n1].text, toks[n2].text, toks[n3].text, toks[n4].text, toks[n5].text) == (':', ':', 'select', '!', '{') or \
                   (toks[n1].text == '::' and toks[n2].text == 'select' and toks[n3].text == '!' and toks[n4].text == '{'):
                    ob = n5 if toks[n5].text == '{' and toks[n4].text == '!' else n4
                    hit = (k, ob)
                    break
        if not hit:
            return text, count
        k, ob = hit
        cb = match_close(toks, ob)
        # split arms: <pattern> = <future expr> => <handler> [,]
        arms = []
        i = ob + 1
        while True:
            # skip ws/comments
            while i < cb and toks[i].kind in ('ws', 'comment'):
                i += 1
            if i >= cb:
                break
            # pattern up to '=' at depth 0 (not '==', '=>')
            j, depth = i, 0
            while True:
                x = toks[j]
                if x.kind == 'punct' and x.text in '([{': depth += 1
                elif x.kind == 'punct' and x.text in ')]}': depth -= 1
                elif x.kind == 'punct' and x.text == '=' and depth == 0 and toks[j + 1].text not in ('=', '>'):
                    break
                j += 1
                if j >= cb: raise Undecided('R20: cannot parse select! arm pattern')
            pat = ''.join(t.text for t in toks[i:j] if t.kind != 'comment').strip()
            # future expression up to '=>' at depth 0
            e0 = j + 1
            j2, depth = e0, 0
            while True:
                x = toks[j2]
                if x.kind == 'punct' and x.text in '([{': depth += 1
                elif x.kind == 'punct' and x.text in ')]}': depth -= 1
                elif x.kind == 'punct' and x.text == '=' and toks[j2 + 1].text == '>' and depth == 0:
                    break
                elif x.kind == 'punct' and x.text == '=>' and depth == 0:
                    break
                j2 += 1
                if j2 >= cb: raise Undecided('R20: cannot parse select! arm future')
            fut = ''.join(t.text for t in toks[e0:j2]).strip()
            h0 = j2 + (1 if toks[j2].text == '=>' else 2)
            # handler: a block `{..}` or an expression up to ',' at depth 0
            h = h0
            while toks[h].kind in ('ws', 'comment'):
                h += 1
            if toks[h].text == '{':
                he = match_close(toks, h)
                handler = ''.join(t.text for t in toks[h:he + 1])
                i = he + 1
                nx = i
                while nx < cb and toks[nx].kind in ('ws', 'comment'): nx += 1
                if nx < cb and toks[nx].text == ',': i = nx + 1
            else:
                j3, depth = h, 0
                while j3 < cb:
                    x = toks[j3]
                    if x.kind == 'punct' and x.text in '([{': depth += 1
                    elif x.kind == 'punct' and x.text in ')]}': depth -= 1
                    elif x.kind == 'punct' and x.text == ',' and depth == 0:
                        break
                    j3 += 1
                handler = '{ ' + ''.join(t.text for t in toks[h:j3]).strip() + ' }'
                i = j3 + 1
            arms.append((pat, fut, handler))
        n = len(arms)
        if n < 2 or n > 4:
            raise Undecided('R20: select! with %d arms' % n)
        out = ['{']
        for a, (pat, fut, handler) in enumerate(arms):
            out.append('let vx_f%d = %s;' % (a, fut))
        out.append('match vx_select%d(%s) {' % (n, ', '.join('vx_f%d.vx_can_complete()' % a for a in range(n))))
        for a, (pat, fut, handler) in enumerate(arms):
            head = ('%d' % a) if a < n - 1 else '_'
            cancels = ' '.join('vx_f%d.vx_cancel();' % b for b in range(n) if b != a)
            out.append('%s => { let %s = vx_f%d.vx_ready(); %s\n%s }' % (head, pat, a, cancels, handler))
        out.append('} }')
        start = toks[k].start
        end = toks[cb].end
        text = text[:start] + '\n'.join(out) + text[end:]
        count += 1
