"""Minimal Rust lexer: enough to find items, match delimiters and rewrite macro calls.

Token kinds: 'ws', 'lcomment', 'bcomment', 'str', 'char', 'lifetime', 'ident', 'num', 'punct'.
Every byte of the input belongs to exactly one token, so ''.join(t.text) == src.
"""
import re
from collections import namedtuple

Tok = namedtuple('Tok', 'kind text start end')

_IDENT = re.compile(r'[A-Za-z_][A-Za-z0-9_]*')
_NUM = re.compile(r'[0-9][0-9A-Za-z_]*(\.[0-9][0-9A-Za-z_]*)?')
_WS = re.compile(r'\s+')


class LexError(Exception):
    pass


def lex(src):
    toks = []
    i, n = 0, len(src)
    while i < n:
        c = src[i]
        m = _WS.match(src, i)
        if m:
            toks.append(Tok('ws', m.group(), i, m.end())); i = m.end(); continue
        if src.startswith('//', i):
            j = src.find('\n', i)
            j = n if j < 0 else j
            toks.append(Tok('lcomment', src[i:j], i, j)); i = j; continue
        if src.startswith('/*', i):
            depth, j = 1, i + 2
            while j < n and depth:
                if src.startswith('/*', j): depth += 1; j += 2
                elif src.startswith('*/', j): depth -= 1; j += 2
                else: j += 1
            if depth: raise LexError('unterminated block comment')
            toks.append(Tok('bcomment', src[i:j], i, j)); i = j; continue
        # raw strings r"..", r#".."#, br".."
        m = re.match(r'(b|c)?r(#*)"', src[i:i + 40])
        if m:
            hashes = m.group(2)
            close = '"' + hashes
            j = src.find(close, i + m.end())
            if j < 0: raise LexError('unterminated raw string')
            j += len(close)
            toks.append(Tok('str', src[i:j], i, j)); i = j; continue
        if c == '"' or (c in 'bc' and src.startswith('"', i + 1)):
            j = i + (2 if c in 'bc' else 1)
            while j < n and src[j] != '"':
                j += 2 if src[j] == '\\' else 1
            if j >= n: raise LexError('unterminated string')
            j += 1
            toks.append(Tok('str', src[i:j], i, j)); i = j; continue
        if c == "'" or (c == 'b' and src.startswith("'", i + 1)):
            k = i + (1 if c == 'b' else 0)
            # char literal or lifetime
            m = re.match(r"'(\\x[0-9a-fA-F]{2}|\\u\{[0-9a-fA-F_]+\}|\\.|[^\\'])'", src[k:k + 16])
            if m:
                j = k + m.end()
                toks.append(Tok('char', src[i:j], i, j)); i = j; continue
            m = re.match(r"'[A-Za-z_][A-Za-z0-9_]*", src[k:k + 64])
            if m and c == "'":
                j = k + m.end()
                toks.append(Tok('lifetime', src[i:j], i, j)); i = j; continue
            raise LexError("bad quote at %d" % i)
        m = _IDENT.match(src, i)
        if m:
            # raw identifiers r#foo
            toks.append(Tok('ident', m.group(), i, m.end())); i = m.end(); continue
        m = _NUM.match(src, i)
        if m:
            toks.append(Tok('num', m.group(), i, m.end())); i = m.end(); continue
        toks.append(Tok('punct', c, i, i + 1)); i += 1
    return toks


OPEN = {'(': ')', '[': ']', '{': '}'}
CLOSE = {')', ']', '}'}


def code_indices(toks):
    """indices of tokens that are not whitespace / comments"""
    return [k for k, t in enumerate(toks) if t.kind not in ('ws', 'lcomment', 'bcomment')]


def match_close(toks, k):
    """toks[k] is an opening delimiter; return index of its matching closer."""
    assert toks[k].kind == 'punct' and toks[k].text in OPEN, toks[k]
    stack = []
    for j in range(k, len(toks)):
        t = toks[j]
        if t.kind != 'punct':
            continue
        if t.text in OPEN:
            stack.append(OPEN[t.text])
        elif t.text in CLOSE:
            if not stack or stack[-1] != t.text:
                raise LexError('mismatched delimiter %r at %d' % (t.text, t.start))
            stack.pop()
            if not stack:
                return j
    raise LexError('unclosed delimiter at %d' % toks[k].start)


def norm(text):
    """normalise a code fragment: drop comments/whitespace, join tokens with single spaces"""
    return ' '.join(t.text for t in lex(text) if t.kind not in ('ws', 'lcomment', 'bcomment'))
