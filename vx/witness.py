"""Replay files, witness search on the real code (replay crate), per-property post checks."""
import json
import os
import subprocess
import time

VERIF = os.path.dirname(os.path.dirname(os.path.abspath(__file__)))
REPLAY = os.path.join(VERIF, 'replay')
HAVE = {'C01', 'C02', 'C16', 'C17', 'C18', 'C03', 'C04', 'C05', 'C06', 'C07', 'C08', 'C09', 'C10', 'C11', 'C12', 'C13', 'C14', 'C15', 'C19', 'C20'}
RIDS = {'C08': ['C08', 'C08Q'], 'C07': ['C07']}     # replay-crate dispatch ids per property (default: the property id)
# dispatch ids of the always-run bounded stand-in where it is a module of its own (the witness search keeps the property id)
BRIDS = {'C15': ['C15E'], 'C02': ['C02E', 'C02P'], 'C04': ['C04', 'C04B'], 'C01': ['C01E', 'C01D'], 'C09': ['C09', 'C01E', 'C04']}
_cache = {}


def build_replay(pid=None):
    """(re)build the replay crate against /repo's current working tree; returns path of the binary or None"""
    scratch = os.environ.get('VERIF_REPO', '/repo')
    if scratch != '/repo':
        # development aid only (never used by a registered command): a scratch source tree gets a scratch COPY of the replay crate
        # whose path dependencies point at that tree, built with this property's modules only into its own target directory
        if not pid or not os.environ.get('VERIF_SCRATCH_REPLAY'):
            return None
        import shutil, hashlib
        tag = hashlib.sha1(scratch.encode()).hexdigest()[:8]
        cdir = '/tmp/vx-replay-scratch-%s' % tag
        shutil.rmtree(cdir, ignore_errors=True)
        shutil.copytree(REPLAY, cdir, ignore=shutil.ignore_patterns('target'))
        ct = os.path.join(cdir, 'Cargo.toml')
        txt = open(ct).read().replace('path = "/repo/', 'path = "%s/' % scratch.rstrip('/'))
        open(ct, 'w').write(txt)
        feats = ','.join(r.lower() for r in RIDS.get(pid, [pid]) + BRIDS.get(pid, []))
        envs = dict(os.environ, CARGO_NET_OFFLINE='true', CARGO_INCREMENTAL='0', CARGO_TARGET_DIR='/tmp/vx-replay-scratch-target-%s' % tag)
        p = subprocess.run(['timeout', '1500', 'cargo', 'build', '--offline', '--quiet', '--no-default-features', '--features', feats], cwd=cdir, env=envs,
                           stdout=subprocess.PIPE, stderr=subprocess.STDOUT, text=True)
        return os.path.join(envs['CARGO_TARGET_DIR'], 'debug', 'vx-replay') if p.returncode == 0 else None
    lock_src, lock_dst = '/repo/Cargo.lock', os.path.join(REPLAY, 'Cargo.lock')
    try:
        if not os.path.exists(lock_dst):
            open(lock_dst, 'w').write(open(lock_src).read())
    except OSError:
        pass
    env = dict(os.environ, CARGO_NET_OFFLINE='true', CARGO_INCREMENTAL='0')
    p = subprocess.run(['timeout', '1500', 'cargo', 'build', '--offline', '--quiet'], cwd=REPLAY, env=env,
                       stdout=subprocess.PIPE, stderr=subprocess.STDOUT, text=True)
    if p.returncode != 0:
        # some OTHER property's module may no longer compile against this tree (changed types): build only this property's modules
        if not pid:
            return None
        feats = ','.join(r.lower() for r in RIDS.get(pid, [pid]) + BRIDS.get(pid, []))
        tdir = os.path.join(REPLAY, 'target', 'only-' + pid)
        env2 = dict(env, CARGO_TARGET_DIR=tdir)
        p = subprocess.run(['timeout', '1500', 'cargo', 'build', '--offline', '--quiet', '--no-default-features', '--features', feats], cwd=REPLAY, env=env2,
                           stdout=subprocess.PIPE, stderr=subprocess.STDOUT, text=True)
        if p.returncode != 0:
            return None
        return os.path.join(tdir, 'debug', 'vx-replay')
    return os.path.join(REPLAY, 'target', 'debug', 'vx-replay')


def search(pid, seed, tier='quick'):
    """run the property's witness search on the real code; returns {obligation: record}"""
    if pid in _cache:
        return _cache[pid]
    res = {}
    if pid in HAVE:
        binary = build_replay(pid)
        if binary:
            for rid in RIDS.get(pid, [pid]):
                p = subprocess.run(['timeout', '900', binary, rid, str(seed), tier], stdout=subprocess.PIPE, stderr=subprocess.PIPE, text=True)
                for ln in p.stdout.split('\n'):
                    ln = ln.strip()
                    if ln.startswith('{'):
                        try:
                            r = json.loads(ln)
                            res.setdefault(r['obligation'], r)
                        except Exception:
                            pass
    _cache[pid] = res
    return res


BOUNDED = {
    'C01': dict(what='the REAL EngineState (every second random history through Engine::process) over the engine layout: request-sent marks (record_in_flight_open / _cancel), '
                     'streamed order snapshots in every state (incl. an Open report with nothing left, report quantity different from the requested one), cancel responses ok / err, '
                     'and FULL account snapshots listing any mix of active and inactive reports for several instruments (an instrument or an order listed twice, unknown ids), '
                     'timestamps from a small domain (ties and stale reports frequent), the same client order id on two instruments / exchanges: every sequence with repetition '
                     'up to a depth bound over five alphabets plus seeded random histories; after every event every instrument table equals the lifecycle model, held exchange '
                     'times never move back, orders not named are untouched, a full snapshot is its items applied one by one; and (dispatch id C01D) the real Engine::process over user commands, scoped commands and strategy ticks with healthy, closed and missing execution links and a refusing risk manager: an order is tracked as in flight after the event exactly when a request for it was reported sent (never for a request that failed to send, was refused or was merely asked for)',
                bound={'quick': '~1.3M events', 'thorough': '~15.6M events'}),
    'C02': dict(what='END TO END on the real code: unindexed trade account events (the venue-side instrument / asset names) -> AccountEventIndexer over the real '
                     'generate_execution_instrument_map -> EngineState::update_from_account, on two layouts (8 instruments on 3 exchanges, the same exchange symbol on up to '
                     'three exchanges, shared asset names, index != position): every fill sequence up to a depth bound over small alphabets on instrument pairs / triples, the '
                     'crafted c02 scripts on all instruments at once in several interleavings, seeded random histories (increase / reduce / exact close / flip); after EVERY event '
                     'EVERY instrument: position = net filled quantity of its OWN instrument, closed record iff its net reaches or crosses zero, realised PnL and fee conservation, '
                     'fill ids, instruments not named untouched; and (dispatch id C02P) the real Engine::process over random event histories with a strategy that issues orders on the same events: the audit record of a fill carries a position-closed record exactly when the fill takes the net quantity to or across zero',
                bound={'quick': '~252k events + 10k engine histories', 'thorough': '~1.9M events + 200k engine histories'}),
    'C18': dict(what='timed value curves through the REAL DrawdownGenerator / MaxDrawdownGenerator / MeanDrawdownGenerator and the PnL curve of a TearSheetGenerator against an '
                     'independent peak-to-trough decomposition of the whole prefix recomputed after every point (crafted, exhaustive over small value sets, seeded random walks, generate() '
                     'asked at every choice of points); and the REAL TradingSummaryGenerator::init over asset tables in which any subset of the assets has a balance at init, then equity '
                     'points delivered by AssetIndex: the generator of exactly the named asset takes them (a twin of the statistics the table held, fed the same points), every other '
                     'asset generator is untouched, one generator per asset of the table',
                bound={'quick': 'curves of up to 7 points over 5 values + 10k random walks + 2^n x n routing cases', 'thorough': 'up to 7 points over 7 values + 150k random walks'}),
    'C16': dict(what='closed positions through the REAL TearSheetGenerator / TradingSummaryGenerator (positions made by the real PositionManager and direct ones: wins, losses, break-even, '
                     'different sizes / entry prices, ties in exit time across instruments, out-of-order exits, clock updates): PnL, win rate, profit factor, returns and their statistics '
                     'of every tear sheet against sums recomputed from the history: crafted histories, every history up to a depth bound over 7 position shapes, seeded random histories '
                     'over up to 3 instruments',
                bound={'quick': 'depth 5 over 7 shapes + 1.5k random histories', 'thorough': 'depth 6 + 20k random histories'}),
    'C15': dict(what='the REAL EngineState (and, for half of the random histories, Engine::process) over six instruments on several exchanges: every sequence with repetition '
                     'up to a length bound over four event alphabets (trades with receive latency larger than the exchange-time gaps, equal / older exchange times, fills stamped '
                     'later than the following market data, two-sided / one-sided / weighted L1 books) plus seeded random histories of 6..65 events; after every delivery: the '
                     'instrument price is the priced delivery with the greatest exchange time (L1 volume-weighted mid before last trade), an open position is marked at the current '
                     'price after a priced market event and at the fill price after an increasing / reducing fill (opening fills and flip remainders skipped: known finding)',
                bound={'quick': '~1.06M deliveries', 'thorough': '~10M deliveries'}),
    'C05': dict(what='the REAL OrderBook / OrderBookSide against a BTreeMap model after every event of crafted and seeded random snapshot / update sequences: levels equal the map, '
                     'best-first, no duplicate prices, mid / volume-weighted mid price, snapshot(depth) for every depth on asymmetric books (0..4 x 0..4 levels, empty and '
                     'one-level sides), worst level re-priced then deleted; WIDE updates (21..300 levels a side, beyond the insertion-sort regime of sort_unstable) with a price '
                     'repeated at the front / middle / back and random wide updates over few prices: the last entry of a price decides; the consumer loop: streams for two managed books '
                     '(plus a non-configured instrument and Reconnecting notices) with increasing / repeated / restarting sequence numbers through the REAL OrderBookL2Manager::run, '
                     'each managed book compared with its map after every item',
                bound={'quick': '~120k cases', 'thorough': '~300k cases'}),
    'C09': dict(what='the REAL EngineState (2 exchanges, 3 instruments, 5 assets, same names on both exchanges) through update_from_account / update_from_market: six sets of 2-5 '
                     'timestamped updates (distinct, tied, repeated values) delivered in every sequence with repetition up to a length bound, streamed or inside full account '
                     'snapshots, orders untracked / in flight / cancel in flight: after every delivery the held value is the delivered update with the greatest timestamp (ties as '
                     'the guards say), other items untouched; plus (dispatch id C01E, the order-lifecycle enumeration over the real EngineState) order reports of EVERY kind incl. Open reports with nothing left to fill, stale or not: a report older than the held exchange data changes nothing; plus (dispatch id C04) the way in: unindexed account messages through the real AccountEventIndexer over maps built by the real generate_execution_instrument_map for every small instrument collection - each message arrives under the index of exactly the asset / instrument it names',
                bound={'quick': '~320k deliveries + ~1.3M lifecycle events', 'thorough': '~7.2M deliveries + ~15.6M lifecycle events'}),
    'C07': dict(what='three REAL ExecutionManagers (one per exchange; maps built by the real generate_execution_instrument_map over 6 instruments, index != position, a name shared '
                     'by two exchanges) against a scripted ExecutionClient under the paused tokio clock: answers immediately / 1 ms / tau-1 / tau (tie) / tau+1 / late / never, Ok and '
                     'error kinds, untranslatable answers; 1..1000 outstanding requests, every answer order for small batches, Shutdown / stream close mid-flight: exactly one event per '
                     'accepted request (response iff answered at or before the timeout, else the timeout failure for the ORIGINAL request), attributed to exchange / instrument / cid, '
                     'arrival order == completion order, nothing after shutdown; the REAL ExecutionBuilder wiring (mock and scripted clients) over every arrangement of 1..3 traded and '
                     '0..2 market-data-only exchanges: each request sent through the returned routing table is answered exactly once by ITS exchange, an untraded exchange has no link',
                bound={'quick': '~20k cases', 'thorough': '~670k cases'}),
    'C11': dict(what='the REAL IndexedInstruments::new / builder / FromIterator on multisets of instrument definitions (spot, perpetual, future, option; settlement and quantity-unit '
                     'assets; 4 exchanges; shared asset names; duplicates) in every insertion order: key == position, values distinct, value set == distinct inputs, look-ups '
                     'mutually inverse, absent keys are errors, every exchange / asset reference inside an instrument resolves, result independent of order and duplicates; the '
                     'REAL EngineStateBuilder / generate_* tables and ExecutionBuilder links (statically and end to end through mock links) hold at index i the entity i',
                bound={'quick': 'ordered tuples with repetition up to length 4 over 12 definitions (a third of the longest), subsets fwd / reversed / rotated, 700 seeded multisets x 4 shuffles (~15k cases)', 'thorough': 'up to length 5, all 4095 subsets, 60k seeded multisets (~520k cases)'}),
    'C20': dict(what='the REAL backtest() / run_backtests() on multi-thread (4 workers) and current-thread tokio runtimes with a recording GlobalData (one log per engine), a '
                     'timing-independent EveryK strategy, mock execution, in-memory and paced market data: every dataset event once and in order before shutdown, summaries '
                     'computed from the own engine, concurrent (N = 2..8) equals alone (orders always; fills / positions / balances / PnL exactly with the paced feed, as a '
                     'sub-multiset with the in-memory feed); a market stream that PANICS at record k: a backtest that returns a summary has consumed the whole dataset; recorded '
                     'datasets with recoverable error records / reconnect notices at every position through the real with_error_handler: every OK event still fed, in order; backtests / '
                     'batches over four DIFFERENT instrument universes on the same mocked exchange id, one after the other in every order and side by side: what ran earlier in the '
                     'process does not change a backtest\'s orders, fills, positions, balances or PnL',
                bound={'quick': 'dataset sizes 0,1,2,7,30,64; ~200 batches, 3 concurrent repetitions', 'thorough': 'plus sizes 3,12,150; ~4000 batches, 6 repetitions'}),
    'C06': dict(what='the REAL Binance spot and futures L2 transformers behind the REAL with_termination_on_error + with_reconnection_events: two instruments on one '
                     'connection followed by a clean second connection; deliveries perturbed by drop / duplicate / swap / replay of an old prefix / late or early start / '
                     'snapshot id at every boundary / stray update: admitted updates form an unbroken chain and equal the reference, a break is a terminal error that ends '
                     'the connection (nothing delivered after it, one Reconnecting notice), gap-free delivery preceded by older messages never errors. '
                     'Book truth: a ground-truth exchange book is evolved by every update; the REAL OrderBookL2Manager consumes the stream and after every applied event '
                     'its book equals the exchange book as of the reported sequence, a re-initialisation snapshot replaces the invalidated book, and updates buffered '
                     'before the REST snapshot (real process_buffered_events; the order of ExchangeWsStream::init mirrored, pinned deductively by C06.init.*) keep it exact',
                bound={'quick': '~10k perturbed deliveries + ~5k book histories', 'thorough': '~180k + ~60k'}),
    'C08': dict(what='the REAL MockExchange: open_order enumeration (sides x quantities x fees x balances around the requirement x instrument known/unknown x kind), and the '
                     'run() request loop under a paused clock (OpenOrder / FetchTrades / FetchAccountSnapshot / FetchBalances; latency 0 / 6 / 11 ms): trade queries before / '
                     'at / around / after every fill time return exactly the accepted fills at or after time_since in order; snapshots equal the ledger',
                bound={'quick': '~3.5k request sequences', 'thorough': '~60k'}),
    'C12': dict(what='the REAL with_reconnect_backoff -> with_termination_on_error -> with_reconnection_events chain (with / without with_error_handler) on scripted connection '
                     'outcomes under the paused tokio clock, every event stamped with virtual time and compared with a reference model over nine backoff policies; forward_to '
                     'against a Tx refusing after k sends; merge driven through two channels with scripted interleavings of sends and closes',
                bound={'quick': '~14k scripts', 'thorough': '~600k'}),
    'C13': dict(what='subscription side joined with message side on the REAL code for 17 (connector, kind) pairs: WebSocketSubMapper::map + serde deserialisation of venue '
                     'payloads + StatelessTransformer, three instrument flavours, instrument lists up to length 3 (4) with repetitions, mixed case, digits, colliding prefixes, '
                     'several expiries / strikes: instrument key, exchange id, price / amount / side / time / trade id as stated; unsubscribed markets are unidentifiable; L1 books '
                     'with both sides, no bids, no asks, empty (an empty side is stated as price 0): None for exactly that side; L1 last_update_time; Binance futures liquidations; '
                     'Bitfinex trades (message side only: real deserialiser + conversion)',
                bound={'quick': '~370k message attributions', 'thorough': '~1.9M'}),
    'C03': dict(what='engine scenarios on the REAL Engine (3 exchanges, 6 instruments; execution links healthy / closed / missing incl. a missing link at a lower '
                     'exchange index and tx maps built by the real ExecutionBuilder; scripted strategy; risk manager refusing a chosen cid set): requests reported '
                     'sent are delivered exactly once to the named exchange and marked in flight; failed ones carry a (fatal where due) error, no mark, nothing '
                     'delivered; refused ones never delivered; no strategy requests while disabled, commands still actioned, generation resumes on the re-enabling event; '
                     'requests REUSING the client order id of a confirmed-open / cancel-in-flight order are shown in flight once sent',
                bound={'quick': 'crafted programmes over 27 link configurations + ~10k seeded random histories', 'thorough': '~200k seeded random histories'}),
    'C10': dict(what='event histories through the REAL sync_run_with_audit + StateReplicaManager (incl. fatal-error records from a closed link): one record per event, '
                     'consecutive sequence numbers, terminal final record; replica state equals engine state (orders modulo in-flight markers) after every prefix; '
                     'a removed record is rejected, a duplicated one skipped',
                bound={'quick': '414 crafted + ~5k seeded random histories', 'thorough': '~60k histories'}),
    'C19': dict(what='engine states on the REAL engine (3 exchanges; per instrument mixes of OpenInFlight / Open / CancelInFlight orders, long / short / no position, '
                     'price known / unknown) x every InstrumentFilter incl. non-adjacent exchange subsets x CancelOrders / ClosePositions, also issued twice: '
                     'requested set equals the reference set; instruments outside the filter untouched',
                bound={'quick': '~6k seeded states x filters', 'thorough': '~60k'}),
    'C04': dict(what='constructors IndexedInstruments::new + generate_execution_instrument_map (iterator pipelines) checked on the REAL code: '
                     'every tuple of distinct spot-instrument definitions over 3 exchanges x 4 pairs with shared asset names, every definition order; '
                     'for every exchange map and every global index/name: only own indices translate, to the own exchange name, round trips are identity, '
                     'order requests are addressed to the named instrument; collections with REPEATED definitions (adjacent / non-adjacent / merged lists) through both '
                     'IndexedInstruments::new and the builder: every distinct definition has exactly one index; the REAL ExecutionBuilder wiring over every arrangement '
                     'of traded and market-data-only exchanges: a request sent through the returned routing table reaches the client of its own exchange (section shared with C07)',
                bound={'quick': 'up to 3 exchanges, up to 4 instruments per collection', 'thorough': 'up to 3 exchanges, up to 5 instruments per collection'}),
}


def undecided_standin(pid, tier, seed):
    """the deductive part is UNDECIDED (structure change, unsupported construct ...): the property's witness search on the real code
    stands in as a BOUNDED check; only a concrete failing input found on the real code is reported"""
    res = []
    for ob, r in search(pid, seed, tier).items():
        res.append(dict(obligation=ob + '@bounded', kind='bounded stand-in on the real code (proof undecided)', text='',
                        verifier_output='the deductive check was undecided; the bounded search on the real code found a failing input',
                        input=r['input'], observed='observed %s, expected %s' % (r['observed'], r['expected'])))
    return res


KANI = {'C06': ['spot_validate_sequence_follows_venue_rule', 'futures_validate_sequence_follows_venue_rule']}


def kani_second_backend(pid, evidence):
    """thorough tier: Kani / CBMC on the real crate (loop-free harness over fully symbolic u64 inputs: a complete proof, and the
    source of concrete counter-examples). Each harness is one more obligation, back end kani+cbmc."""
    viol = []
    d = os.path.join(VERIF, 'kani')
    if os.environ.get('VERIF_REPO', '/repo') != '/repo':
        return viol
    try:
        open(os.path.join(d, 'Cargo.lock'), 'w').write(open('/repo/Cargo.lock').read())
    except OSError:
        pass
    for h in KANI[pid]:
        t0 = time.time()
        env = dict(os.environ, CARGO_NET_OFFLINE='true')
        p = subprocess.run(['timeout', '2400', 'cargo', 'kani', '--harness', h], cwd=d, env=env, stdout=subprocess.PIPE, stderr=subprocess.STDOUT, text=True)
        out = p.stdout
        ok = 'VERIFICATION:- SUCCESSFUL' in out
        failed = 'VERIFICATION:- FAILED' in out
        label = '%s.kani.%s' % (pid, h)
        rec = dict(label=label, kind='kani harness on the real crate (all u64 symbolic, loop-free: complete)', discharged=ok, backend='kani 0.68 + cbmc', wall_s=round(time.time() - t0, 1))
        if evidence is not None:
            c = evidence['coverage']
            c['obligations'] += 1
            c['discharged'] += 1 if ok else 0
            c['obligations_table'].append(rec)
        if failed:
            q = subprocess.run(['timeout', '2400', 'cargo', 'kani', '--harness', h, '-Z', 'concrete-playback', '--concrete-playback=print'], cwd=d, env=env,
                               stdout=subprocess.PIPE, stderr=subprocess.STDOUT, text=True)
            cex = '\n'.join(l for l in q.stdout.split('\n') if 'Failed Checks' in l or 'concrete' in l.lower() or l.strip().startswith('//') or 'vec![' in l)[-4000:]
            viol.append(dict(obligation=label, kind='kani counter-example on the real crate', text='', verifier_output=out[-3000:],
                             input='kani concrete playback (values of the kani::any() calls in order):\n' + cex, observed='assertion of the harness failed'))
        elif not ok:
            raise_undecided('kani did not finish for %s: %s' % (h, out[-600:]))
    return viol


def raise_undecided(msg):
    from .extract import Undecided
    raise Undecided(msg)


def post_checks(pid, tier, seed, evidence):
    """bounded stand-ins on the real code (labelled bounded, never counted in obligations/discharged); second back end in the thorough tier"""
    extra = []
    if pid in KANI and tier == 'thorough' and evidence is not None:
        extra = kani_second_backend(pid, evidence)      # in addition to the bounded stand-in below
    if pid not in BOUNDED:
        return extra
    binary = build_replay(pid)
    info = dict(BOUNDED[pid], bound=BOUNDED[pid]['bound'][tier], label='BOUNDED - not counted as proved')
    viol = []
    if not binary:
        info['status'] = 'not run: replay crate unavailable (scratch source tree or build failure)'
        if os.environ.get('VERIF_REPO', '/repo') == '/repo':
            print('NOTE property=%s bounded stand-in NOT RUN: the replay crate does not build against this tree' % pid)
    else:
        t0 = time.time()
        cases, rc, err = 0, 0, ''
        for rid in BRIDS.get(pid, RIDS.get(pid, [pid])):
            p = subprocess.run(['timeout', '1800', binary, rid, str(seed), tier], stdout=subprocess.PIPE, stderr=subprocess.PIPE, text=True)
            for ln in p.stderr.split('\n'):
                if ln.startswith('cases evaluated:'):
                    cases += int(ln.split(':')[1])
            for ln in p.stdout.split('\n'):
                if ln.strip().startswith('{'):
                    r = json.loads(ln)
                    viol.append(dict(obligation=r['obligation'] if '.bounded' in r['obligation'] else r['obligation'] + '@bounded', kind='bounded stand-in on the real code',
                                     text='', verifier_output='bounded enumeration found a failing configuration', input=r['input'],
                                     observed='observed %s, expected %s' % (r['observed'], r['expected'])))
            if p.returncode != 0:
                rc, err = p.returncode, p.stderr[-500:]
        info.update(status='ran', cases=cases, failures=len(viol), wall_s=round(time.time() - t0, 2), exit_code=rc)
        if rc != 0 and not viol:
            info['status'] = 'replay binary failed (exit %s): %s' % (rc, err)
    if evidence is not None:
        evidence['coverage'].setdefault('bounded_standins', []).append(info)
    return extra + viol

def make_replay(pid, v, tier, seed):
    d = os.path.join(VERIF, 'replays')
    os.makedirs(d, exist_ok=True)
    path = os.path.join(d, '%s-%s.json' % (pid, v['obligation'].replace('/', '_')))
    if not v.get('input'):
        found = search(pid, seed, tier)
        w = found.get(v['obligation'])
        if not w and found:
            # a witness that belongs to a recorded KNOWN FINDING says nothing about this obligation: it is never attached
            from . import findings as _f
            known = _f.load()
            found = {k: x for k, x in found.items() if not _f.match(known, pid, k)}
        if not w and found:
            # no search rule carries this label: attach a failing input of the same property found on the real code
            k = sorted(found)[0]
            w = dict(found[k], observed='[witness found under search rule %s] %s' % (k, found[k]['observed']))
            v['witness_label'] = k
        if w:
            v['input'], v['observed'] = w['input'], w['observed']
    rec = dict(property=pid, obligation=v['obligation'], witness_label=v.get('witness_label', v['obligation']), kind=v.get('kind'), clause=v.get('text'),
               verifier_output=v.get('verifier_output'), input=v.get('input'), observed=v.get('observed'),
               replay_cmd='cd /verif/replay && cargo run --offline -- %s   # re-executes the witness search on the real code' % pid,
               note='no failing input found by the witness search; the failed obligation and the verifier output are the report'
               if not v.get('input') else 'failing input found by the witness search and replayed on the real code (path dependencies on /repo)')
    with open(path, 'w') as f:
        json.dump(rec, f, indent=1)
    return path


def has_input(path):
    try:
        return bool(json.load(open(path)).get('input'))
    except Exception:
        return False


def replay(pid, path):
    """re-execute the recorded witness on the real code: the witness search is deterministic, so re-running it
    and looking for the same obligation reproduces (or not) the failure"""
    rec = json.load(open(path))
    print(json.dumps(rec, indent=1))
    if not rec.get('input'):
        print('replay: no failing input recorded (obligation %s); verifier output above' % rec.get('obligation'))
        return 1
    found = search(pid, 0)
    w = found.get(rec.get('witness_label') or rec['obligation']) or found.get(rec['obligation'].replace('@bounded', ''))
    if w:
        print('replay: REPRODUCED on the real code: %s' % json.dumps(w))
        return 1
    print('replay: not reproduced on the current tree')
    return 0
