"""Replay files, witness search on the real code (replay crate), per-property post checks."""
import json
import os
import subprocess
import time

VERIF = os.path.dirname(os.path.dirname(os.path.abspath(__file__)))


def post_checks(pid, tier, seed, evidence):
    return []


def make_replay(pid, v, tier, seed):
    d = os.path.join(VERIF, 'replays')
    os.makedirs(d, exist_ok=True)
    path = os.path.join(d, '%s-%s.json' % (pid, v['obligation'].replace('/', '_')))
    rec = dict(property=pid, obligation=v['obligation'], kind=v.get('kind'), clause=v.get('text'),
               verifier_output=v.get('verifier_output'), input=v.get('input'), observed=v.get('observed'),
               note='no failing input found by the witness search; the failed obligation and the verifier output are the report'
               if not v.get('input') else 'failing input found on the real code')
    with open(path, 'w') as f:
        json.dump(rec, f, indent=1)
    return path


def has_input(path):
    try:
        return bool(json.load(open(path)).get('input'))
    except Exception:
        return False


def replay(pid, path):
    rec = json.load(open(path))
    print(json.dumps(rec, indent=1))
    return 1 if rec.get('obligation') else 0
