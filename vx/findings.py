"""KNOWN_FINDINGS file (committed, never written at run time).
Lines:  known: property=Cxx obligation=<label> <what fails>
        fixed: property=Cxx <commit> <what failed>        (suppresses nothing)"""
import os
import re

PATH = os.path.join(os.path.dirname(os.path.dirname(os.path.abspath(__file__))), 'KNOWN_FINDINGS')


def load():
    res = []
    if not os.path.exists(PATH):
        return res
    for ln in open(PATH):
        ln = ln.strip()
        m = re.match(r'known:\s+property=(\S+)\s+obligation=(\S+)\s+(.*)$', ln)
        if m:
            res.append((m.group(1), m.group(2), m.group(3)))
    return res


def match(known, pid, obligation):
    for (p, o, what) in known:
        if p == pid and o == obligation:
            return 'obligation=%s %s' % (o, what)
    return None
